"""C01 — accepted programs never go wrong.  Necessary structural conditions of the checker/evaluator contract:
  R01.1-3  call typing, no truncating zip, equality field coverage                     (the C04 rules, re-evaluated here)
  R01.4    native registration agreement: argument indices within the declared arity, downcasts agree with the declared
           parameter type class, constructed result variants agree with the declared return type class
  R01.5    every explicit panic of the evaluator is listed with the checker obligation that discharges it
  R01.6    unsigned subtraction / signed overflow in builtins is guarded by a dominating comparison or listed with a reason
  R01.7    no data-length recursion in compiler-generated drop glue (list-shaped owning links need an iterative Drop)
  R01.8    small-form integer arithmetic that can overflow ((i64::MIN, -1), -i64::MIN) is excluded by an earlier match arm (= R14.2)
"""
import re
from .lib import mirq, astq, natives, guards, report
from .lib.facts import strip_generics, find_nodes, walk, op_local, op_place

NATIVE_OF = {'XSequence': 'Native:XSequence', 'XOptional': 'Native:XOptional', 'XMapping': 'Native:XMapping', 'XSet': 'Native:XSet',
             'XStack': 'Native:XStack', 'XGenerator': 'Native:XGenerator', 'Regex': 'Native:Regex',
             'XContinuousDistribution': 'Native:XContinuousDistribution', 'XDiscreteDistribution': 'Native:XDiscreteDistribution'}
PRIM_OF = {'Int': 'Int', 'Float': 'Float', 'String': 'String', 'Bool': 'Bool', 'Function': 'Function', 'StructInstance': 'Struct', 'UnionInstance': 'Union'}
RESULT_OF = {'Int': 'Int', 'Float': 'Float', 'float': 'Float', 'String': 'String', 'Bool': 'Bool'}

# explicit panics of the evaluator: (file, fn, macro) -> the checker rule / invariant that discharges it
EVAL_PANICS = {
    ('src/runtime_scope.rs', 'put', 'panic'): 'only Owned cells are written: from_template creates FromTemplate cells exactly for non-Uninitialized template cells, and declarations target Uninitialized ones',
    ('src/runtime_scope.rs', 'eval', 'panic'): 'Member on non-struct / MemberValue on non-union / callee not a function / uninitialised cell: discharged by compile (Member* arms restrict the object type), type_of(Call) (R01.1) and forward gating (R03.3)',
    ('src/xexpr.rs', 'unwrap_value', 'panic'): 'TailCall never reaches unwrap_value: R07.3 (results of flagged evaluations are only returned)',
    ('src/root_runtime_scope.rs', 'get_user_defined_function', 'unreachable'): 'the cell of a static overload holds a function value (Declaration::Function)',
}

# subtractions accepted without a recognised dominating guard: (body, subtrahend description) -> reason
SUB_OK = {
    ('builtin::stack::add_stack_tail::{closure#0}', "('const', 1)"): 'inside the Some(head) arm: a stack with a head has length >= 1 (XStack constructors keep length = number of nodes)',
    ('builtin::sequence::XSequence::quickselect', "('const', 1)"): 'arr is non-empty (every caller rejects n >= len first, so len >= 1); pivot_idx - 1 is in the Ordering::Greater arm of pivot_idx.cmp(&n) with n >= 0',
    ('builtin::sequence::add_sequence_nth_largest::{closure#0}', '*'): 'len - i1 - 1 after the `i1 >= len0 => error` test on the same immutable sequence',
    ('builtin::sequence::XSequence::get', '*'): 'Chain: partition_point(|x| *x <= idx) guarantees midpoint_lengths[part_idx-1] <= idx',
    ('builtin::disc_distributions::XDiscreteDistribution::pmf', "('const', 1)"): 'Ok(idx) arm after the Ok(0) arm: idx >= 1',
    ('util::xformatter::FillSpecs::fillers', '*'): 'chars_to_pad - chars_to_pad/2',
    ('<builtin::sequence::XSequence as native_types::XNativeValue>::dyn_size', "('const', 1)"): 'a Chain has at least two parts (XSequence::chain is its only constructor)',
    ('util::fenced_string::FencedString::from_string', "('const', 1)"): 'guarded by the preceding emptiness test of the string',
    ('util::ipush::IPush::ipush', "('const', 1)"): 'len() - 1 right after a push',
    ('builtin::sequence::XSequence::sample', '*'): 'u64::BITS - leading_zeros(): leading_zeros <= 64',
    ('builtin::sequence::XSequence::len', "('ref', '_1*as6.1')"): 'Slice(_, start, Some(end)): slice() builds a Slice only after its start >= end test returned Empty (R15.4), so end - start cannot underflow',
    # (closures are looked up by their enclosing function: closure numbers shift when code moves)
    ('util::fenced_string::FencedString::substring', 'closure:*'): 'i - start_byte over table entries from position `start` on, which are >= char_starts[start]: from_string pushes the increasing char_indices',
    ('builtin::regex::match_at', '*'): 'haystack().len() - start(): regex_automata Input keeps start <= len',
}


# listed subtractions that are only safe inside a particular match arm: body -> (field whose discriminant is tested, variant index)
SUB_NEEDS = {
    'builtin::stack::add_stack_tail::{closure#0}': ('head', 1),
}


def bl_cleanup(b, bb):
    return b.is_cleanup(bb)


def widened(b, rv, depth=5):
    """both operands of a subtraction in a wide type (i128 / u128 / i64) are constants or values cast up from a type at most half
    as wide, possibly combined by one more such + / - : the exact result always fits"""
    aty = rv.get('aty') or ''
    m = re.match(r'[iu](\d+)$', aty)
    if not m:
        return False
    width = int(m.group(1))

    def narrow(op, d):
        if 'const' in op:
            return True
        p = op_place(op)
        if p is None:
            return False
        if p['p']:
            # a component of a tuple built here (`let (a, b) = (x as i128, y as i128)`) or the value of a checked operation
            if not (len(p['p']) == 1 and isinstance(p['p'][0], dict) and 'f' in p['p'][0]):
                return False
            ds = b.defs().get(p['l'], [])
            if len(ds) > 1 and d > 0 and all(x[0] == 'stmt' and x[3]['rv']['k'] == 'agg' and x[3]['rv'].get('ak') == 'tuple' and p['p'][0]['f'] < len(x[3]['rv']['ops']) for x in ds):
                # a tuple chosen by an if / match: `let (low, high) = if c { (a, b) } else { (b, a) }` -- every arm's component
                return all(narrow(x[3]['rv']['ops'][p['p'][0]['f']], d - 1) for x in ds)
            if len(ds) != 1 or ds[0][0] != 'stmt':
                return False
            r0 = ds[0][3]['rv']
            if r0['k'] == 'agg' and r0.get('ak') == 'tuple' and p['p'][0]['f'] < len(r0['ops']):
                return narrow(r0['ops'][p['p'][0]['f']], d)
            if r0['k'] in ('bin', 'checkedbin') and p['p'][0]['f'] == 0 and r0['op'].replace('WithOverflow', '') in ('Add', 'Sub') and d > 0:
                return narrow(r0['a'], d - 1) and narrow(r0['b'], d - 1)
            return False
        ds = b.defs().get(p['l'], [])
        if len(ds) > 1 and d > 0 and all(x[0] == 'stmt' and x[3]['rv']['k'] == 'use' for x in ds):
            return all(narrow(x[3]['rv']['op'], d - 1) for x in ds)
        if len(ds) != 1 or ds[0][0] != 'stmt':
            return False
        r2 = ds[0][3]['rv']
        if r2['k'] == 'un' and r2.get('op') == 'Neg' and d > 0:
            return narrow(r2['a'], d - 1)
        if r2['k'] == 'cast' and r2.get('ck') == 'IntToInt':
            sp = op_place(r2['op'])
            sty = b.local_ty(sp['l']) if sp is not None and not sp['p'] else ''
            m2 = re.match(r'[iu](\d+|size)$', sty or '')
            return bool(m2) and (64 if m2.group(1) == 'size' else int(m2.group(1))) * 2 <= width
        if r2['k'] in ('bin', 'checkedbin') and r2['op'].replace('WithOverflow', '') in ('Add', 'Sub') and d > 0:
            return narrow(r2['a'], d - 1) and narrow(r2['b'], d - 1)
        if r2['k'] == 'use':
            return narrow(r2['op'], d)
        return False
    return narrow(rv['a'], depth) and narrow(rv['b'], depth)


def rebadge(ctx, sub, mapping):
    for r in sub.rules:
        if r.rid in mapping:
            new = mapping[r.rid]
            r2 = ctx.rule(new, r.title)
            r2.instances, r2.discharged, r2.samples, r2.kinds, r2.floor, r2.exempt, r2.notes = r.instances, r.discharged, r.samples, r.kinds, r.floor, r.exempt, r.notes
            for f in r.findings:
                f.key = f.key.replace(r.rid + '/', new + '/', 1)
                f.rule = new
                r2.findings.append(f)



def inherited_listing(mir, b):
    """a private helper that is called only from functions whose subtractions are listed wholesale (('f', '*') or ('f', 'closure:*'))
    carries arithmetic that was lifted out of them: it inherits their reason"""
    allowed = {f for (f, y) in SUB_OK if y in ('*', 'closure:*')}
    base = strip_generics(mir.enclosing_fn(b)) if b.kind == 'closure' else b.nid
    if base in allowed:
        return None
    fb = [x for x in mir.bodies if x.nid == base]
    if not fb or not mirq.private_helper_of(mir, fb[0], allowed, depth=1):
        return None
    idx = mir.callers_index()
    callers = sorted({c[0].nid.split('::{closure')[0] for c in idx.get(base, [])})
    if not callers:
        return None
    return 'private helper of %s: %s' % (callers[0].split('::')[-1], SUB_OK.get((callers[0], '*')) or SUB_OK.get((callers[0], 'closure:*')))

def run(ctx):
    mir = ctx.mir
    ast = ctx.ast
    ctx.explanation = ('Agreement of the checker/evaluator contract tables for all instances: call typing and type relations (C04 rules), every '
                       'native registration\'s declared spec against what its closure does with its arguments, the evaluator\'s explicit panics '
                       'against the checker obligations that discharge them, guarded unsigned arithmetic in builtins, and drop-glue recursion.')
    ctx.trusted = ['rustc MIR', 'syn parse', 'the listed reasons (EVAL_PANICS, SUB_OK in rules/c01.py) were confirmed by reading']
    ctx.assumptions = ['soundness of the type rules for all programs and absence of ALL panics (index / library panics) are NOT decided']
    # ---------------- R01.1-3 via the C04 module
    from . import c04
    sub = report.Ctx('C04', ctx.tier, ctx.repo)
    sub._mir, sub._ast, sub._grammar = ctx._mir, ctx._ast, ctx._grammar
    c04.run(sub)
    rebadge(ctx, sub, {'R04.0': 'R01.1', 'R04.2': 'R01.2', 'R04.5': 'R01.2b', 'R04.3': 'R01.3', 'R04.8': 'R01.10'})

    # ---------------- R01.4 native registration agreement
    r4 = ctx.rule('R01.4', 'native registrations: argument indices, downcasts and result variants agree with the declared spec')
    regs = natives.registrations(ast)
    judged = unj = 0
    for g in regs:
        spec, impl = g['spec'], g['impl']
        ident = '%s/%s' % (g['fn'], g['name'])
        if not spec or not impl:
            unj += 1
            continue
        kind, variant, cl = impl
        req, opt, ret = spec['required'], spec['optional'], spec['ret']
        params = req + opt
        if kind in ('ufunc', 'binfunc'):
            # ufunc!(V, f): argument 0 downcast to V ; add_binfunc!: both arguments downcast to the variant
            n_args = 1 if kind == 'ufunc' else 2
            for k in range(n_args):
                want = params[k] if k < len(params) else None
                got = PRIM_OF.get(variant)
                if want is None or got is None or want == 'Generic':
                    unj += 1
                    continue
                ok = want == got
                judged += 1
                r4.inst({'native': ident, 'arg': k, 'declared': want, 'downcast': got}, ok=ok, kind=(ident, k, 'dc'))
                if not ok:
                    r4.fail('%s/arg%d/downcast' % (ident, k), '%s:%d' % (g['file'], g['line']), 'parameter %d is declared %s but the native downcasts it to %s (to_primitive! panics on a foreign tag)' % (k, want, got))
            if len(params) < n_args:
                r4.fail('%s/arity' % ident, '%s:%d' % (g['file'], g['line']), 'spec declares %d parameters but the native reads %d' % (len(params), n_args))
            body_for_results = cl
        else:
            u = natives.closure_uses(cl)
            if u is None:
                unj += 1
                continue
            for (k, how, line) in u['uses']:
                if k is None:
                    continue
                if how == 'index':
                    ok = k < len(req)
                    judged += 1
                    r4.inst({'native': ident, 'args[%d]' % k: 'required params = %d' % len(req)}, ok=ok, kind=(ident, k, 'idx'))
                    if not ok:
                        if k < len(params):
                            r4.fail('%s/arg%d/optional-indexed' % (ident, k), '%s:%d' % (g['file'], line), 'args[%d] indexes an OPTIONAL parameter unconditionally: calls that omit it index out of bounds' % k)
                        else:
                            r4.fail('%s/arg%d/out-of-arity' % (ident, k), '%s:%d' % (g['file'], line), 'args[%d] is beyond the %d declared parameters: every call panics' % (k, len(params)))
                elif how == 'index-guarded':
                    ok = k < len(params)
                    judged += 1
                    r4.inst({'native': ident, 'args[%d] under an args.len() test' % k: 'declared params = %d' % len(params)}, ok=ok, kind=(ident, k, 'idxg'))
                    if not ok:
                        r4.fail('%s/arg%d/out-of-arity' % (ident, k), '%s:%d' % (g['file'], line), 'args[%d] is beyond the %d declared parameters' % (k, len(params)))
                elif how == 'get':
                    ok = k < len(params)
                    judged += 1
                    r4.inst({'native': ident, 'args.get(%d)' % k: 'declared params = %d' % len(params)}, ok=ok, kind=(ident, k, 'get'))
                    if not ok:
                        r4.fail('%s/arg%d/get-beyond-arity' % (ident, k), '%s:%d' % (g['file'], line), 'args.get(%d) can never be supplied: only %d parameters are declared' % (k, len(params)))
            for (k, dk, what, line) in u['downcasts']:
                want = params[k] if k < len(params) else None
                got = PRIM_OF.get(what) if dk == 'prim' else NATIVE_OF.get(what)
                if want is None or got is None or want in ('Generic', 'Unknown'):
                    unj += 1
                    continue
                if got == 'Union' and want == 'Struct':
                    got = 'Struct'
                ok = want == got
                judged += 1
                r4.inst({'native': ident, 'arg': k, 'declared': want, 'downcast': got}, ok=ok, kind=(ident, k, 'dc'))
                if not ok:
                    r4.fail('%s/arg%d/downcast' % (ident, k), '%s:%d' % (g['file'], line), 'parameter %d is declared %s but the native downcasts it to %s: a well-typed call panics (or reads a value as the wrong kind)' % (k, want, got))
            body_for_results = cl
        # result variants constructed directly as the function's value
        if ret in ('Int', 'Float', 'String', 'Bool') and body_for_results is not None:
            rs = natives.closure_uses(body_for_results) if kind == 'native' else None
            results = rs['results'] if rs else [(n['func']['path'].split('::')[-1], n['line']) for n, _ in find_nodes(body_for_results, lambda y: y.get('k') == 'call' and y['func'].get('k') == 'path' and re.match(r'^XValue::(Int|Float|String|Bool|float)$', y['func']['path']))]
            # only constructions that are the value returned: wrapped directly in Ok(Ok(..)) / ManagedXValue::new(..) / from_result
            for (v, line) in results:
                got = RESULT_OF.get(v)
                if got is None:
                    continue
                # intermediate values of other kinds are legitimately built inside natives that return natives; here ret is primitive
                ok = got == ret
                judged += 1
                r4.inst({'native': ident, 'declared_return': ret, 'constructs': got}, ok=ok, kind=(ident, 'ret', got))
                if not ok:
                    r4.fail('%s/return/%s' % (ident, got), '%s:%d' % (g['file'], line), 'declared to return %s but constructs XValue::%s as a result' % (ret, v))
    r4.note('registrations=%d judged_facts=%d unjudged=%d' % (len(regs), judged, unj))
    if len(regs) < 270:
        r4.fail('anchor/registrations', '-', 'only %d native registrations recognised (286 counted by hand)' % len(regs))
    r4.need(500)

    # ---------------- R01.5 evaluator panics
    r5 = ctx.rule('R01.5', 'explicit panics of the evaluator are listed with the discharging checker obligation')
    for fn_file, fn, im in astq.all_fns(ast):
        if fn_file not in ('src/runtime_scope.rs', 'src/xexpr.rs', 'src/root_runtime_scope.rs', 'src/xvalue.rs', 'src/runtime.rs'):
            continue
        for n, ps in find_nodes(fn['body'], lambda y: y.get('k') == 'macro' and y['name'] in ('panic', 'unreachable', 'unimplemented', 'todo')):
            key = (fn_file, fn['name'], n['name'])
            ok = key in EVAL_PANICS
            why = EVAL_PANICS.get(key, '-')
            if not ok:
                # an arm that the dominating tests on the same place already exclude needs no listing
                for mb in ctx.mir.bodies:
                    if mb.file != fn_file or mb.nid.split('::{closure')[0].split('::')[-1] != fn['name']:
                        continue
                    for bbm, tmm in mb.calls():
                        cn = tmm.get('callee') or tmm.get('decl') or ''
                        if 'panicking' in cn and int(tmm['span'].split(':')[1]) == n['line'] and mirq.arm_infeasible(mb, bbm):
                            ok = True
                            why = 'infeasible arm: every path to this match has already excluded the variant (dominating tests on the same place)'
            r5.inst({'file': fn_file, 'fn': fn['name'], 'macro': n['name'], 'line': n['line'], 'discharged_by': why[:80]}, ok=ok, kind=(fn_file, fn['name'], n['line']))
            if not ok:
                r5.fail('%s::%s/%s' % (fn_file, fn['name'], n['name']), '%s:%d' % (fn_file, n['line']), 'explicit %s! in the evaluator without a listed checker obligation that makes it unreachable' % n['name'])
    r5.need(6)

    # ---------------- R01.6 guarded arithmetic in builtins
    r6 = ctx.rule('R01.6', 'subtraction overflow checks in builtins are guarded or listed')
    for b in mir.bodies:
        if not (b.file.startswith('src/builtin/') or b.file.startswith('src/util/')):
            continue
        if b.nid.startswith(('util::trysort', 'util::try_heap', '<util::try')) or b.kind == 'promoted':
            continue
        if '::tests::' in b.nid:
            continue
        bad = []
        for i, bl in enumerate(b.blocks):
            t = bl['term']
            if t['k'] != 'assert' or bl['cleanup'] or t['msg'] != 'Overflow' or 'Overflow(Sub' not in t['msgfull']:
                continue
            st = [s for s in bl['stmts'] if s['k'] == 'assign' and s['rv']['k'] == 'bin' and s['rv']['op'] == 'SubWithOverflow']
            if not st:
                continue
            x = guards.origin_key(b, st[-1]['rv']['a'])
            y = guards.origin_key(b, st[-1]['rv']['b'])
            if widened(b, st[-1]['rv']):
                r6.inst({'body': b.id, 'site': mirq.site(b, i), 'guard': 'operands widened from a narrower integer type: the difference fits'}, kind=(b.id, i))
                continue
            f = guards.dominating_facts(b, i)
            if guards.implies_ge(f, x, y):
                r6.inst({'body': b.id, 'site': mirq.site(b, i), 'guard': 'dominating comparison'}, kind=(b.id, i))
                continue
            if guards.implies_ge_at_callers(mir, b, x, y):
                r6.inst({'body': b.id, 'site': mirq.site(b, i), 'guard': 'comparison dominating every call site of this helper'}, kind=(b.id, i))
                continue
            listed = (b.nid, str(y)) in SUB_OK or (b.nid, '*') in SUB_OK or inherited_listing(mir, b) is not None
            need = SUB_NEEDS.get(b.nid)
            if listed and need is not None:
                fld, val = need
                listed = any(str(v) == str(val) and any(isinstance(e, dict) and e.get('n') == fld for e in pl['p']) for pl, pty, v in mirq.dominating_discriminants(b, i))
            r6.inst({'body': b.id, 'site': mirq.site(b, i), 'subtrahend': str(y)[:40], 'listed': listed}, ok=listed, kind=(b.id, i))
            if listed:
                r6.exempted(b.nid, SUB_OK.get((b.nid, str(y))) or SUB_OK.get((b.nid, '*')) or inherited_listing(mir, b))
            else:
                bad.append(i)
        # (b) the same arithmetic written on references: `&i64 - i64`, `usize - &usize`, `-&i64` are calls of the core::ops impls for
        #     primitives, which check for overflow exactly like the MIR operator.  Unsigned: guarded by a dominating comparison or
        #     listed.  Signed: the span of two 64-bit values needs 65 bits, no comparison of the operands makes `a - b` safe: listed only.
        for bb, tm in b.calls():
            cn = tm.get('callee') or tm.get('decl') or ''
            m_ = re.search(r"<&?(?:'\w+ )?([iu])(8|16|32|64|128|size) as std::ops::(Sub|Neg)", cn)
            if not m_ or bl_cleanup(b, bb):
                continue
            signed = m_.group(1) == 'i'
            y = guards.origin_key(b, tm['args'][1]) if len(tm['args']) > 1 else ('neg',)
            if not signed:
                x = guards.origin_key(b, tm['args'][0])
                f = guards.dominating_facts(b, bb)
                if guards.implies_ge(f, x, y):
                    r6.inst({'body': b.id, 'site': mirq.site(b, bb), 'guard': 'dominating comparison'}, kind=(b.id, 'call', bb))
                    continue
            encl = strip_generics(mir.enclosing_fn(b)) if b.kind == 'closure' else None
            listed = (b.nid, str(y)) in SUB_OK or (b.nid, '*') in SUB_OK or (encl is not None and (encl, 'closure:*') in SUB_OK) or inherited_listing(mir, b) is not None
            r6.inst({'body': b.id, 'site': mirq.site(b, bb), 'reference_arithmetic': cn.split(' as ')[0].strip('<') + ' ' + m_.group(3), 'listed': listed}, ok=listed, kind=(b.id, 'call', bb))
            if listed:
                r6.exempted(b.nid, SUB_OK.get((b.nid, str(y))) or SUB_OK.get((b.nid, '*')) or SUB_OK.get((encl, 'closure:*')) or inherited_listing(mir, b))
            else:
                bad.append(bb)
        if bad:
            r6.fail('%s/arith' % b.nid, mirq.site(b, bad[0]), '%d unsigned/checked subtraction(s) on argument-derived values without a dominating guard on the same operands (first at %s): underflow panics the interpreter' % (len(bad), mirq.site(b, bad[0])),
                    {'sites': [mirq.site(b, i) for i in bad]})
    r6.need(30)
    capacity_requests(ctx)

    # ---------------- R01.7 drop-glue recursion
    r7 = ctx.rule('R01.7', 'list-shaped owning links implement an iterative Drop')
    drop_impls = {strip_generics(im['self']) for im in mir.impls if im.get('trait') == 'std::ops::Drop'}
    for aid, a in sorted(mir.adts.items()):
        for v in a['variants']:
            for f in v['fields']:
                ty = f['ty']
                # Option<Rc<Self>> / Option<Box<Self>> / Rc<Self> / Box<Self>: a chain whose length is program data
                if a['kind'] == 'Struct' and re.search(r'(std::rc::Rc|std::boxed::Box|std::sync::Arc)<%s(<|>)' % re.escape(aid), ty):
                    ok = aid in drop_impls
                    r7.inst({'adt': aid, 'field': f['name'], 'ty': ty[:70], 'has_iterative_drop_impl': ok}, ok=ok, kind=(aid, f['name']))
                    if not ok:
                        r7.fail('%s/%s' % (aid, f['name']), a['span'], 'self-linked owning pointer without a Drop impl: dropping a value of length n recurses n deep in drop glue and overflows the native stack (process abort)')
    r7.need(1)

    # ---------------- R01.9 a callback looked up for a native is accepted only with exactly the expected return type
    # (the natives downcast callback results by that type: to_primitive!(eq_result, Bool); there is no coercion)
    r9 = ctx.rule('R01.9', 'get_func_with_type accepts a callback only when its return type equals the expected one')
    from .lib import absint
    from .lib.facts import strip_generics as _sg, callee_name as _cn
    gb = ctx.mir.find('builtin::core::get_func_with_type')
    if len(gb) != 1:
        r9.fail('anchor/get_func_with_type', 'src/builtin/core.rs', 'get_func_with_type not found')
    else:
        for same in (True, False):
            def oracle(tm, vals, env, same=same):
                nm = _sg(_cn(tm) or '')
                if nm == 'xtype::CallbackType::rtype':
                    return 'RT'
                ds = [absint.deref(None, env, absint.deref(None, env, v)) for v in vals]
                if set(ds) == {'RT', 'ERT'} and len(vals) == 2:
                    if nm.endswith('::ne') and 'PartialEq' in nm:
                        return not same
                    if nm.endswith('::eq') and 'PartialEq' in nm:
                        return same
                return absint.UNKNOWN
            rs = absint.returns(ctx.mir, gb[0], {'_4': ('some', 'ERT')}, oracle)
            kinds = sorted({(r[0] if isinstance(r, tuple) and r else 'unknown') for r in rs})
            ok = ('ok' in kinds) if same else ('ok' not in kinds and 'unknown' not in kinds and 'err' in kinds)
            r9.inst({'callback_return_type': 'equal to the expected type' if same else 'different from the expected type', 'possible_outcomes': kinds}, ok=ok, kind=('ret', same))
            if not ok:
                r9.fail('get_func_with_type/%s' % ('rejects-equal' if same else 'accepts-different'), mirq.site(gb[0], 0),
                        'with a callback whose return type is %s the expected one, get_func_with_type can return %s: a native would downcast the callback result to the wrong primitive type and panic'
                        % ('equal to' if same else 'different from', kinds))
    r9.need(2)

    # ---------------- R01.8 machine arithmetic of the small integer form (shared with R14.2): an overflow there is a panic
    from . import c14
    r8 = ctx.rule('R01.8', 'small-form integer arithmetic that can overflow is excluded by an earlier arm (shared with R14.2)')
    c14.small_form_arith(ctx, r8)


MEMORY_BOUNDED = re.compile(r'(std::vec::Vec|alloc::vec::Vec|core::slice::<impl \[T\]>|std::string::String|core::str::<impl str>|std::collections::\w+::\w+|regex_automata::\S*Captures|util::try_heap::TryHeap|util::fenced_string::FencedString)::(len|group_len|count|bytes)$')
PROGRAM_NUMBER = re.compile(r'(ToPrimitive::to_(usize|u64|u32|i64)|builtin::sequence::XSequence::len|XSequence<W, R, T>::len)$')
CAPACITY_FIELDS_OK = {('XStack', 'length'): 'the number of nodes the stack actually holds (maintained by push/pop): bounded by memory already accounted'}


def capacity_requests(ctx):
    """R01.11: `with_capacity(n)` asks the allocator for n slots at once; when it cannot have them the process aborts (no unwinding,
    no error value).  In the builtins every such n is (a) the length of a collection that is already in memory (or the minimum of
    something and such a length), or (b) announced first to the size limit: a can_allocate*(..) whose argument is computed from the
    same number dominates the request -- in the body, or at every call site when n comes in as a parameter / through self."""
    mir = ctx.mir
    r11 = ctx.rule('R01.11', 'capacity requests sized by a number from the program are announced to the size limit first')
    from .lib.facts import callee_name
    idx = mir.callers_index()

    PASS = ('::min', '::saturating_sub', '::deref', '::as_ref', '::unwrap', '::branch', '::clone', '::unwrap_or', '::from', '::into', '::unwrap_or_else', '::max', '::checked_mul', '::saturating_mul')

    def classify(b, local):
        """(kinds, sources).  kinds: subset of {'memory', 'program', 'param', 'field:<T.f>', 'call:<f>'}; sources: the *numbers* the
        value is computed from -- ('num', call block) for a conversion of a program integer, ('len', root local of the receiver)
        for the logical length of a sequence, ('param', k), ('field', T.f).  The walk stops at the calls and field reads that say
        what kind of number it is (the length of a vector is bounded by memory whatever vector it is)."""
        kinds, sources, seen, todo = set(), set(), set(), [local]
        defs = b.defs()
        while todo:
            l = todo.pop()
            if l in seen:
                continue
            seen.add(l)
            ds = defs.get(l, [])
            if not ds and 1 <= l <= b.d['argc']:
                kinds.add('param')
                sources.add(('param', l))
                continue
            for kind, dbb, idx_, x in ds:
                if kind == 'call':
                    nm = strip_generics(callee_name(x) or x.get('decl') or '')
                    if MEMORY_BOUNDED.search(nm):
                        kinds.add('memory')
                    elif PROGRAM_NUMBER.search(nm):
                        kinds.add('program')
                        q = op_place(x['args'][0]) if x['args'] else None
                        if nm.endswith('::len') and q is not None:
                            sources.add(('len', guards.root_local(b, q['l'])))
                        else:
                            sources.add(('num', dbb))
                    elif nm.endswith(PASS):
                        for a in x['args']:
                            q = op_place(a)
                            if q is not None:
                                todo.append(q['l'])
                    else:
                        kinds.add('call:' + nm.split('::')[-1])
                        sources.add(('call', dbb))
                    continue
                rv = x['rv']
                places = [op_place(rv[k]) for k in ('op', 'a', 'b') if isinstance(rv.get(k), dict)] + ([rv['place']] if 'place' in rv else []) + [op_place(o) for o in rv.get('ops', [])]
                for pl in places:
                    if pl is None:
                        continue
                    names = [e['n'] for e in pl['p'] if isinstance(e, dict) and 'n' in e]
                    ty = (b.local_ty(pl['l']) or '').replace('&mut ', '').lstrip('&').split('<')[0].split('::')[-1]
                    if names and ty not in ('Option', 'Result', 'ControlFlow'):
                        kinds.add('field:%s.%s' % (ty, names[-1]))
                        sources.add(('field', '%s.%s' % (ty, names[-1])))
                    else:
                        todo.append(pl['l'])
        return kinds, sources

    def guarded_here(b, bb, sources):
        for d in b.dominators().get(bb, ()):
            t = b.term(d)
            if t['k'] == 'call' and re.search(r'::can_allocate(_by)?$|::can_afford$', strip_generics(callee_name(t) or '')) and len(t['args']) > 1:
                p = op_place(t['args'][1])
                if p is not None and classify(b, p['l'])[1] & sources:
                    return True
        return False

    def guarded_at_callers(b, sources):
        if b.kind == 'closure':
            return False
        sites = idx.get(b.nid, [])
        if not sites:
            return False
        for cb, cbb, t in sites:
            here = set()
            for src in sources:
                if src[0] == 'param' and src[1] - 1 < len(t['args']):
                    q = op_place(t['args'][src[1] - 1])
                    if q is not None:
                        here |= classify(cb, q['l'])[1]
                elif src[0] == 'len' and 1 <= src[1] <= b.d['argc'] and src[1] - 1 < len(t['args']):
                    q = op_place(t['args'][src[1] - 1])
                    if q is not None:
                        here.add(('len', guards.root_local(cb, q['l'])))
            if not here or not guarded_here(cb, cbb, here):
                return False
        return True
    for b in mir.bodies:
        if not b.file.startswith('src/builtin/') or '::tests::' in b.nid:
            continue
        for bb, t in b.calls():
            nm = strip_generics(callee_name(t) or '')
            if not nm.endswith('::with_capacity') or not t['args'] or b.is_cleanup(bb):
                continue
            p = op_place(t['args'][0])
            if p is None:
                r11.inst({'body': b.id, 'site': mirq.site(b, bb), 'capacity': 'constant'}, kind=(b.id, bb))
                continue
            kinds, sources = classify(b, p['l'])
            risky = {k for k in kinds if k == 'program' or k == 'param' or k.startswith('call:') or (k.startswith('field:') and (k[6:].split('.')[0], k.split('.')[-1]) not in CAPACITY_FIELDS_OK)}
            # min(n, length in memory) is bounded whatever n is
            clamp = 'memory' in kinds and any(strip_generics(callee_name(ct) or '').endswith('::min') and not ct['dest']['p'] and ct['dest']['l'] in mirq.backslice(b, [p['l']]) for cbb, ct in b.calls())
            if not risky or clamp:
                r11.inst({'body': b.id, 'site': mirq.site(b, bb), 'capacity': 'bounded by what is in memory: ' + ', '.join(sorted(kinds))}, kind=(b.id, bb))
                for k in kinds:
                    if k.startswith('field:') and (k[6:].split('.')[0], k.split('.')[-1]) in CAPACITY_FIELDS_OK:
                        r11.exempted(k, CAPACITY_FIELDS_OK[(k[6:].split('.')[0], k.split('.')[-1])])
                continue
            ok = guarded_here(b, bb, sources) or guarded_at_callers(b, sources)
            fn = strip_generics(mir.enclosing_fn(b)) if b.kind == 'closure' else b.nid
            r11.inst({'body': b.id, 'site': mirq.site(b, bb), 'capacity_from': sorted(kinds), 'announced_to_the_size_limit': ok}, ok=ok, kind=(b.id, bb))
            if not ok:
                r11.fail('%s/with_capacity/%s' % (fn, '-'.join(sorted(k.replace('field:', '') for k in risky))), mirq.site(b, bb), 'with_capacity is sized by a number the program supplies (%s) and no can_allocate computed from that number dominates it: a huge number aborts the process (memory allocation of N bytes failed) instead of ending in an error value or a limit violation' % ', '.join(sorted(risky)))
    r11.need(5)
