#!/usr/bin/env python3
"""mkseedmeta.py <id> <property> <change> <needs> : write seeded/<id>/meta.json (ran/caught_by are filled in afterwards)"""
import json, os, sys
ROOT = os.path.dirname(os.path.dirname(os.path.abspath(__file__)))
sid, prop, change, needs = sys.argv[1:5]
d = os.path.join(ROOT, 'seeded', sid)
p = os.path.join(d, 'meta.json')
m = json.load(open(p)) if os.path.exists(p) else {}
m.update({'property': prop, 'change': change, 'needs': needs})
lc = sid.lower()
m.setdefault('demo', [f for f in os.listdir(d) if f.startswith('demo_')])
m.setdefault('ran', [])
m.setdefault('caught_by', '')
json.dump(m, open(p, 'w'), indent=1)
print(p)
