#!/usr/bin/env python3
"""tools/mkmutant.py  name  property  expect_key_contains  why  file old new [file old new ...]
Creates mutants/<name>.diff + .json by editing /repo temporarily (reverted immediately)."""
import sys, subprocess, json
name, prop, expect, why = sys.argv[1:5]
edits = sys.argv[5:]
assert len(edits) % 3 == 0
try:
    for i in range(0, len(edits), 3):
        f, old, new = edits[i:i + 3]
        p = '/repo/' + f
        s = open(p).read()
        assert s.count(old) == 1, (name, f, s.count(old))
        open(p, 'w').write(s.replace(old, new))
    d = subprocess.check_output(['git', '-C', '/repo', 'diff'], text=True)
finally:
    subprocess.check_call(['git', '-C', '/repo', 'checkout', '--', '.'])
open('/verif/mutants/%s.diff' % name, 'w').write(d)
json.dump({'patch': name + '.diff', 'property': prop, 'expect_key_contains': expect, 'why': why}, open('/verif/mutants/%s.json' % name, 'w'), indent=1)
print('wrote', name, len(d.splitlines()), 'diff lines')
