#!/usr/bin/env python3
"""Regenerate the machine-written appendix of DESIGN.md (between the AS-BUILT
markers) from what is actually in /verif: evidence/*.json (rules, instance
counts, floors, exemptions), mutants/*.json, seeded/*/meta.json and
known_findings.json.  Run after `./xv all`."""
import glob
import json
import os
import re
import sys

ROOT = os.path.dirname(os.path.dirname(os.path.abspath(__file__)))
BEGIN = '<!-- BEGIN AS-BUILT (tools/mkdesign.py) -->'
END = '<!-- END AS-BUILT -->'


def esc(s):
    return str(s).replace('|', '\\|').replace('\n', ' ')


def rules_table(out):
    out.append('### A.1 Rules armed per property (from the last `./xv all`)\n')
    out.append('instances = rule instances examined on the current tree; floor = the '
               'count below which the rule fails closed; exempt = rows of the '
               'exemption table inside the rule module, each with a reason that is '
               'copied into the evidence file.\n')
    out.append('| rule | decides | instances | floor | exempt |')
    out.append('|---|---|---|---|---|')
    for p in sorted(glob.glob(os.path.join(ROOT, 'evidence', 'C*.json'))):
        e = json.load(open(p))
        for r in e['coverage'].get('rules', []):
            out.append('| %s | %s | %s | %s | %s |' % (
                r['id'], esc(r['title']), r['instances'], r.get('floor', ''),
                len(r.get('exempted', []))))
    out.append('')


def mutants_table(out):
    out.append('### A.2 Self-test mutants (`./xv selftest`, replayed by every thorough tier)\n')
    out.append('Each is a patch to /repo that still compiles; the named rule key must '
               'appear as a VIOLATION on a scratch copy with the patch applied.\n')
    out.append('| mutant | property | rule key that must fire | what the patch does |')
    out.append('|---|---|---|---|')
    for p in sorted(glob.glob(os.path.join(ROOT, 'mutants', '*.json'))):
        m = json.load(open(p))
        out.append('| %s | %s | `%s` | %s |' % (
            os.path.basename(p)[:-5], m['property'], esc(m['expect_key_contains']),
            esc(m.get('why', ''))))
    out.append('')


def seeded_table(out):
    out.append('### A.3 Seeded changes written by independent sub-agents (`seeded/<id>/`)\n')
    out.append('Each was written by a fresh sub-agent that saw only the text of one '
               'property and a scratch worktree; each compiles, keeps the 433 tests '
               'green and ships a demonstration that fails with the change and passes '
               'without it (confirmed in a scratch worktree). `caught by` is what the '
               'checks printed with the patch applied to /repo; `missed` rows say why.\n')
    out.append('| seeded | property | change | needs to manifest | caught by | first run and what was changed |')
    out.append('|---|---|---|---|---|---|')
    for p in sorted(glob.glob(os.path.join(ROOT, 'seeded', '*', 'meta.json'))):
        m = json.load(open(p))
        out.append('| %s | %s | %s | %s | %s | %s |' % (
            os.path.basename(os.path.dirname(p)), m['property'], esc(m.get('change', '')),
            esc(m.get('needs', '')), esc(m.get('caught_by', '')), esc(m.get('history', ''))))
    out.append('')


def findings(out):
    k = json.load(open(os.path.join(ROOT, 'known_findings.json')))
    out.append('### A.4 Known findings (suppressed by exact key only)\n')
    out.append('| property | key | what fails |')
    out.append('|---|---|---|')
    for f in k['findings']:
        out.append('| %s | `%s` | %s |' % (f['property'], esc(f['key']), esc(f['what'])))
    out.append('')
    out.append('### A.5 Defects repaired in /repo (`fix:` commits; suppress nothing)\n')
    out.append('| property | commit | what failed |')
    out.append('|---|---|---|')
    for s in k['fixed']:
        m = re.match(r'fixed: property=(\S+) (\S+) (.*)', s)
        out.append('| %s | %s | %s |' % (m.group(1), m.group(2), esc(m.group(3))))
    out.append('')


def main():
    out = [BEGIN, '', '## Appendix A — as-built tables (generated; do not edit by hand)\n']
    rules_table(out)
    mutants_table(out)
    seeded_table(out)
    findings(out)
    out.append(END)
    path = os.path.join(ROOT, 'DESIGN.md')
    text = open(path).read()
    block = '\n'.join(out)
    if BEGIN in text:
        text = text[:text.index(BEGIN)] + block + text[text.index(END) + len(END):]
    else:
        text = text.rstrip('\n') + '\n\n' + block + '\n'
    open(path, 'w').write(text)
    print('DESIGN.md appendix regenerated: %d lines' % len(out))


if __name__ == '__main__':
    sys.exit(main())
