#!/bin/bash
# tools/xvon.sh <tree> <xv args...> : run xv against another source tree (scratch copy / worktree) with private cache, evidence and output
tree=$1; shift
tag=$(echo "$tree" | tr '/' '_')
export XV_REPO=$tree XV_CACHE=/tmp/xvon$tag/cache XV_TARGET=/verif/.cache/target-mir-w7 XV_EVIDENCE_DIR=/tmp/xvon$tag/evidence XV_OUT_DIR=/tmp/xvon$tag/out
mkdir -p /tmp/xvon$tag
exec /verif/xv "$@"
