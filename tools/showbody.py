#!/usr/bin/env python3
"""compact pseudo-MIR printer: tools/showbody.py <regex on body id> [line_lo line_hi]"""
import sys, re, json
sys.path.insert(0, '/verif')
from rules.lib import facts

def pl(p):
    s = '_%d' % p['l']
    for e in p['p']:
        if e == '*': s = '(*%s)' % s
        elif 'n' in e: s += '.%s' % e['n']
        elif 'f' in e: s += '.%d' % e['f']
        elif 'dc' in e: s = '(%s as %s)' % (s, e['dc'])
        elif 'idx' in e: s += '[_%d]' % e['idx']
        elif 'cidx' in e: s += '[%d%s]' % (e['cidx'], 'e' if e['from_end'] else '')
        else: s += '?' + json.dumps(e)
    return s
def op(o):
    if 'copy' in o: return pl(o['copy'])
    if 'move' in o: return 'move ' + pl(o['move'])
    if 'const' in o:
        c = o['const']
        if 'promoted' in c: return 'const promoted[%d]' % c['promoted']
        return 'const ' + c['s'][:60]
    return '?'
def rv(r):
    k = r['k']
    if k == 'use': return op(r['op'])
    if k == 'ref': return '&%s%s' % ('mut ' if r['mut'] else '', pl(r['place']))
    if k == 'bin': return '%s(%s, %s)' % (r['op'], op(r['a']), op(r['b']))
    if k == 'un': return '%s(%s)' % (r['op'], op(r['a']))
    if k == 'discr': return 'discr(%s)' % pl(r['place'])
    if k == 'agg':
        if r['ak'] == 'adt': return '%s::%s(%s)' % (r['adt'].split('::')[-1], r['v'], ', '.join(op(x) for x in r['ops']))
        if r['ak'] == 'closure': return 'closure %s(%s)' % (r['def'].split('::', 2)[-1], ', '.join(op(x) for x in r['ops']))
        return '%s(%s)' % (r['ak'], ', '.join(op(x) for x in r['ops']))
    if k == 'cast': return '%s as %s [%s]' % (op(r['op']), r['ty'][:40], r['ck'][:30])
    if k == 'copyderef': return 'copyderef ' + pl(r['place'])
    if k == 'rawptr': return '&raw ' + pl(r['place'])
    return k + ' ' + json.dumps(r)[:80]
def show(b, lo=None, hi=None):
    print('==', b.id, b.span, 'argc', b.d['argc'])
    for v in b.dbg:
        if 'l' in v['val']: print('   dbg', v['name'], '=', pl(v['val']))
    for i, bl in enumerate(b.blocks):
        t = bl['term']
        ln = int(t['span'].split(':')[1])
        if lo is not None and not (lo <= ln <= hi): continue
        print(' bb%d%s:' % (i, ' (cleanup)' if bl['cleanup'] else ''))
        for s in bl['stmts']:
            if s['k'] == 'assign': print('     %s = %s   // %s' % (pl(s['place']), rv(s['rv']), s['span'].split(':')[1]))
            else: print('     ', s['k'], json.dumps(s)[:100])
        k = t['k']
        if k == 'call':
            nm = t.get('callee') or t.get('decl') or ('fnptr ' + op(t['func']))
            print('     %s = %s(%s) -> bb%s unwind %s  // %s' % (pl(t['dest']), nm, ', '.join(op(a) for a in t['args']), t['target'], t['unwind'], t['span'].split(':')[1]))
        elif k == 'switch': print('     switch %s %s else bb%d  // %s' % (op(t['discr']), ['%s->bb%d' % (v, x) for v, x in t['targets']], t['otherwise'], t['span'].split(':')[1]))
        elif k == 'drop': print('     drop %s : %s -> bb%d' % (pl(t['place']), t['pty'][:60], t['target']))
        elif k == 'assert': print('     assert %s == %s (%s) -> bb%d' % (op(t['cond']), t['expected'], t['msg'], t['target']))
        elif k == 'goto': print('     goto bb%d' % t['target'])
        else: print('     ', k)
if __name__ == '__main__':
    m = facts.load_mir()
    rx = re.compile(sys.argv[1])
    lo = int(sys.argv[2]) if len(sys.argv) > 2 else None
    hi = int(sys.argv[3]) if len(sys.argv) > 3 else None
    for b in m.bodies:
        if rx.search(b.id): show(b, lo, hi)
