"""tools/portpatch.py: helper to re-create a patch in mutants/ or twins/ against the current /repo: from portpatch import port; port(kind, name, [(file, old, new), ...])"""
import subprocess, sys, json, os, shutil
def port(kind, name, edits, strip_hunks_for=None):
    """edits: list of (file, old, new) applied to a scratch copy; if strip_hunks_for is given, first apply the existing patch
    restricted to the other files"""
    rm = '/tmp/portrepo'
    shutil.rmtree(rm, ignore_errors=True)
    os.makedirs(rm)
    subprocess.check_call(['cp', '-r', '/repo/src', rm + '/src'])
    subprocess.check_call(['git', 'init', '-q', rm])
    subprocess.check_call(['git', '-C', rm, 'add', '-A'])
    subprocess.check_call(['git', '-C', rm, '-c', 'user.email=a@b', '-c', 'user.name=x', 'commit', '-qm', 'base'])
    old_patch = '/verif/%s/%s.diff' % (kind, name)
    if strip_hunks_for:
        # apply the hunks of the old patch that still apply (other files)
        subprocess.call(['patch', '-p1', '-s', '-f', '--no-backup-if-mismatch', '-i', old_patch], cwd=rm, stdout=subprocess.DEVNULL, stderr=subprocess.DEVNULL)
        subprocess.call('find . -name "*.rej" -delete; find . -name "*.orig" -delete', shell=True, cwd=rm)
    for f, old, new in edits:
        p = rm + '/' + f
        s = open(p).read()
        assert s.count(old) == 1, (name, f, s.count(old), old[:50])
        open(p, 'w').write(s.replace(old, new))
    d = subprocess.check_output(['git', '-C', rm, 'diff'], text=True)
    open(old_patch, 'w').write(d)
    print(name, len(d.splitlines()), 'lines')
