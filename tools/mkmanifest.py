#!/usr/bin/env python3
"""Regenerates /verif/MANIFEST.json from the table below (kept here so the manifest is always schema-valid)."""
import json, os
ROOT = os.path.dirname(os.path.dirname(os.path.abspath(__file__)))
props = [json.loads(l) for l in open(os.path.join(ROOT, 'properties.jsonl'))]

CLAIMED = {
    'C11': dict(
        level='proof',
        text='Structural theorem, exhaustive over all MIR bodies of the crate: every effect site (enumerated by capability: '
             'uses of the injected writer, clock, random source, thread::sleep, regex compilation) is dominated by '
             'check_permission(&P)? for the permission the book assigns to it, in its own body or at every call / closure-creation '
             'site up the call graph (a writing helper shared by builtins with different permissions is judged once per calling builtin); the permission constants carry the documented defaults and the lookup falls back to them; allow / forbid overwrite the entry of the permission on every path with the value their name says, so the host\'s last word is what the lookup sees. '
             'Obligations = effect sites + constant/shape obligations; all must be discharged.',
        note='Trusted: rustc MIR + trait resolution; effect primitives named in rules/c11.py (io::Write on W, TimeProvider::unix_now, '
             'get_rng, thread::sleep, regex/regex_automata constructors); host code outside the crate; unwinding paths ignored.',
        technique='static analysis: who-may-access + interprocedural dominance over resolved MIR (rustc_private driver), book table agreement',
        design='2/C11'),
    'C13': dict(
        level='proof',
        text='Constructor discipline proved by induction over construction sites, exhaustive over all MIR bodies: every XValue::Float / '
             'LiteralFloat aggregate (and every use of those constructors as functions) is either dominated by the true edge of a branch on '
             'f64::is_finite of the same value, or its operand is a finite-preserving function (copy, clone, negation, abs) of a payload read '
             'from an existing finite carrier; the host clock value flows only into the checked constructor. Hence no non-finite float value '
             'can be created. Obligations = construction sites + clock sinks.',
        note='Trusted: rustc MIR; serde_json::Number never holds a non-finite f64; f64 neg/abs/clone preserve finiteness; only XValue::Float '
             'carries floats observable by programs or exported to the host.',
        technique='static analysis: construction-site enumeration + dominance by is_finite guard + value-origin dataflow on resolved MIR',
        design='2/C13'),
    'C09': dict(
        level='other',
        text='(Level lowered from proof to other: one clause has a known finding, see below.) Conservation of the accounted total decided as a structural theorem over all MIR bodies: the counter is mutated only by '
             'allocate/deallocate; allocate is called only by Managed*::new and deallocate only by their Drop impls with the recorded size; '
             'Managed* literals occur only in new with size = allocate\'s result; every outcome of allocate is balanced (Ok: +size once and that '
             'size is returned, Err: net zero); no leak/duplication primitive outside the audited sort utilities; values are immutable after '
             'construction so no Rc cycle can form. Balance and enforcement of allocate are decided as an outcome table by finite abstract evaluation of its MIR (the counter, the new size and the limit are touched only through +, - and comparisons, so five orderings represent every run; crate helpers are evaluated too): below / at the limit -> Ok(size) and counter + size, above -> Err and counter unchanged, no limit -> Ok(0). Also decided: who reads size_limit (monotonicity in L), that the static part of a native value is the size of the boxed object (not of a pointer to it), that no size model reads a reference count (one known finding: XStack::dyn_size stops at shared nodes, so stacks built by repeated push are under-accounted), and '
             'that the size model reads every runtime-sized payload field, and that the byte counts derived from a big integer are in bytes (unit analysis over bits / 64-bit digits / bytes). NOT decided: that dyn_size byte counts are adequate numbers, nor peak '
             'accounting of transient native buffers.',
        note='Trusted: rustc MIR + drop elaboration (each Managed* value dropped exactly once unless leaked by a listed primitive); '
             'regex-automata/statrs objects hold no managed values.',
        technique='static analysis: who-writes / who-calls / construction-site rules, per-path event balance of allocate, type-closure immutability audit on resolved MIR',
        design='2/C09'),
    'C08': dict(
        level='other',
        text='Structural necessary conditions of the limit mechanism, each decided for every body/path of the crate on resolved MIR: '
             '(1) user-function frames are built and user output expressions read only in eval_func_with_values (single door, so stdlib '
             'functions written in the language are counted too); (2) increment_call_limit()? and check_timeout()? dominate every frame '
             'construction, outside the trampoline loop; the depth test precedes every declaration evaluation; height = parent+1; '
             '(3) each limit field and counter is read/written only by its mechanism; (4) each limit comparison has the documented normal form '
             '(depth: height >= L; calls: ++count >= L; recursion: ++iterations > L; search: L permits then one violation). '
             'where an adaptor zips its source with the search budget no end-of-input marker is chained onto the source first (the marker would take a permit of its own). NOT decided: that the counters equal the reference depth/count of an arbitrary program (needs an execution model).',
        note='Trusted: rustc MIR; std iterator adaptor semantics (take/chain/once). Unwind paths ignored.',
        technique='static analysis: who-may-call, dominance (must-pass-through), who-reads/writes, comparison normal-form extraction on resolved MIR',
        design='2/C08'),
    'C07': dict(
        level='other',
        text='A complete flag-provenance argument on resolved MIR over all bodies of the crate: TailCall is constructed once, and eval, evaluated abstractly on a Call expression for every combination of '
             '(tail flag, kind of callee expression, kind of callee cell), returns TailCall (or a propagated failure) and nothing else exactly for a flagged call of the local recursion cell, and never otherwise; inside eval the flag flows only to that test and the Call-arm dispatch; every '
             'evaluation performed under a non-false flag (19 sites) has its result returned unchanged by its caller (never unwrapped, matched or '
             'stored), the flag being the caller\'s own parameter applied to its own scope and argument slice; the trampoline consumes TailCall by '
             'looping; eval_func_with_values cannot hand its flag to user code; every documented short-circuit parameter that is returned unchanged '
             'is evaluated with the flag (so tail self-calls under carriers consume no depth). A tail iteration re-enters through the same gate as an ordinary call (its argument vector passes the erroring-argument test before the '
             'frame is built). Together: a TailCall is produced only for a self-call '
             'in tail position and is consumed only by the trampoline of that same function. NOT decided by execution: numeric equality of results.',
        note='Trusted: rustc MIR; the book as the list of documented short-circuit functions. Literal-true flag sites are listed with reasons in rules/c07.py.',
        technique='static analysis: flag/value provenance dataflow, abstract decision table of the TailCall test, forward result-flow (tail-position) check on resolved MIR',
        design='2/C07'),
    'C06': dict(
        level='other',
        text='Linearity of violation- and error-carrying values decided for every MIR body of the crate: (1) no value that may hold a '
             'RuntimeViolation is dropped (path-sensitive over drop flags × discriminants; a drop is tolerated only when the function is '
             'already committed to returning a violation) nor handed to a discarding combinator (ok, is_ok, unwrap_or, ...): after drop '
             'elaboration a swallowed violation necessarily shows up as such a drop or call, so this is exact for "a violation value is '
             'discarded"; (2) the same for error values, where dropping/inspecting is allowed only inside the documented handlers '
             '(is_error, if_error, get_error) or when a clone was forwarded; (3) must-pass-through: every origin of the argument vector of a user call (the parameter, and the TailCall payload taken by the '
             'trampoline) passes the erroring-argument test before from_template; (4) by element types, collections cannot hold errors; (5) no position-dropping iterator adaptor '
             '(skip, step_by, nth, last, ...) is applied to an iterator whose items can carry a violation, and closure-deciding adaptors (skip_while, filter, ...) keep a violation item '
             '(the closure is evaluated abstractly on a violation); iterators that come from XSequence::iter / XGenerator::iter are recognised as fallible although their concrete type does not say so. NOT decided: the leftmost-error order among '
             'several simultaneous errors beyond the argument-order rule of C02.',
        note='Trusted: rustc drop elaboration; the book as the list of handlers. Two exemptions with reasons in rules/c06.py (E_EXEMPT).',
        technique='static analysis: path-sensitive drop/linearity analysis (drop flags × discriminants) and combinator inventory on resolved MIR',
        design='2/C06'),
    'C14': dict(
        level='other',
        text='Representation-invariant and operator-discipline rules decided for every constructor site, match arm and operator application '
             'of LazyBigint (syntax tree): Long(e) only where e cannot fit i64 (overflow branch of checked_*, recomputed with the same '
             'operator; failed try_into; MIN arms; listed assert sites) — the canonical form on which derived equality, hash, text and the '
             'mixed comparison arms rely; overflow-capable machine arithmetic on the small form only behind arms excluding (MIN,-1)/MIN; '
             'impls of Op/OpAssign apply only Op; swapped or-patterns only in commutative operators; Rem floored as documented; mixed '
             'comparison arms mirrored (abstract decision table on the MIR); the int builtins register the operator of the same name; every integer a binary int native returns is computed by the operator of that native from both operands; no saturating float-to-integer `as` cast yields a program integer; abs of the machine word only where i64::MIN is excluded; integer functions of the stdlib written in the language do not round a float quotient; the float parse of a number literal is reached only after the spelling was tested for being an integer spelling; the machine-parse shortcut of from_str_radix reaches the arbitrary-size parser on every path for both overflow kinds (decision table over IntErrorKind); where an int native reduces one number by `%` (floored) and by a division, the division is the floored one or exact (its dividend is n - r). NOT decided: exactness of gcd/'
             'factorial/roots/binom/multinom arithmetic and of text/float conversions (value-level).',
        note='Trusted: syn parse; i64 checked_* and num-bigint semantics; the book for the rounding mode of mod.',
        technique='static analysis: syntax-tree rules (constructor-site classification, arm-order guards, operator/trait agreement, table agreement with the book); cast / call inventories, dominance and control-dependence rules and an abstract decision table on resolved MIR; a lexical rule over the stdlib text',
        design='2/C14'),
    'C12': dict(
        level='other',
        text='Effect-freedom decided as a capability argument on the resolved call graph: none of the ~1280 bodies reachable from feed_file '
             '(pest parser, compilation scope, type relations, and the 60 compile-time callbacks of dynamic functions) calls the evaluator, a '
             'native or a dyn-eval callback, nor has a local of runtime/scope type — the only road to the injected writer, clock and rng. '
             'Every Option / Result unwrapped in the type layer (type relations, compilation scope, entry point, error rendering, compile-time helpers of the dynamic functions) is listed with the invariant that makes the value present (a new unwrap is reported). Errors are rendered against the very text that was parsed (same origin of both operands in feed_file), so their byte offsets index it. The auto type `$` stays a whole turbofish slot: every recursive call of get_complete_type (helpers of the file included) passes the constant false for the auto permission. Totality is decided partially: every rule-dispatching match covers all alternatives of the grammar choice it dispatches on '
             '(computed from the pest rule tree), unwrap chains on rule children stay within the guaranteed children, and every explicit '
             'panic!/unreachable!/unimplemented! of the compile phase is a covered dispatch default or listed with a reason; text-to-number '
             'conversions are never unwrapped; every position-indexed access of the compile phase (and every slice of source text with constant bounds) is dominated by a length test of the same collection or listed with a reason; '
             'the grammar has no repetition whose item can be re-parsed exponentially (pest optimiser modelled). Determinism: hash-order iteration reaches only order-insensitive sinks; the only process-global '
             'mutable state is the scope-id counter, used for equality only; Debug of hash containers that reaches error text is order-independent. NOT decided: termination of parsing in general, message contents, '
             'panics inside library code or arithmetic panics.',
        note='Trusted: rustc call resolution; pest produces exactly the pairs its grammar describes; the listed panic reasons (rules/c12.py PANIC_OK) were confirmed by reading.',
        technique='static analysis: call-graph reachability + type/capability audit on resolved MIR; grammar-tree vs match-arm agreement (pest_meta + syn); panic and hash-order inventories',
        design='2/C12'),
    'C03': dict(
        level='other',
        text='Structural necessary conditions of lexical scoping decided on resolved MIR and the syntax tree: the special identifier class '
             'item<N> is anchored/canonical and parsed fallibly (spelling -> symbol injective); default-value expressions are read only when a '
             'closure is created, evaluated once on the defining scope (the result of the id-based ancestor search), stored as values and only '
             'cloned per call; a cell carrying forward requirements reaches XExpr::Value / a capture only through require_forwards on every '
             'path (compile and prepare_return), and the host entry point refuses unfulfilled functions; the capture re-threading protocol '
             '(request depth-1, rewritten depth 1 at parent.cells.len()+k, requests pushed to the parent before any other cell allocation, '
             'parent id = enclosing scope id); name lookup order; both runtime ancestor walks compare template ids with the compile-time '
             'parent id; the forward gate is transitive (a definition that fulfils a declaration stores its own outstanding requirements in the '
             'declaration\'s cell on every registering path, and require_forwards passes the requirements of a fulfilled declaration\'s cell on to its '
             'work list); a function value created over a pending capture follows the pending chain first and stays pending only if the cell is still '
             'unfilled; the lexical-parent search of a call falls back to the root of the call stack (a function declared at the root is found from any caller); every declared function cell, of a named function or a lambda, carries the function\'s own forward requirements. NOT decided: that the resolved (depth, index) pairs are right for every nesting shape. One known finding: pending captures '
             'are resolved through lexical parent links with expect(), which an escaped function value does not have.',
        note='Trusted: rustc MIR, syn; python re as the reading of the interner regex literal. Known finding R03.10 in known_findings.json.',
        technique='static analysis: who-reads, must-pass-through (avoiding-path reachability), call-graph may-allocate closure, syntax-tree shape rules',
        design='2/C03'),
    'C04': dict(
        level='other',
        text='Structural necessary conditions of the static checker decided for every site (resolved MIR; the sibling case tables on the syntax tree): calls through function-typed '
             'values are arity- and argument-checked for both callee kinds; the declared-type checks (let, function output, parameter default), evaluated abstractly for the three possible results of bind_in_assignment (none / empty binding / binding of a generic), reject / accept / reject; every zip of '
             'two runtime-length lists in the type relations and call/construct typing is preceded by a length test on the same two lists (or '
             'listed with a confirmed reason) and its two sides iterate in the same direction; the hand-written type equality reads every '
             'typing-relevant field (incl. the return type of function types, and, for compound types, the declaration itself, not only its name); matching a parameter type that is a generic variable always records a binding (abstract evaluation; one known finding: the caller\'s generic of the same name); the case tables of bind_in_assignment / common_type / eq agree '
             'with the confirmed table; an already-bound generic parameter is re-bound only to the success payload of common_type(existing, new) '
             '(MIR: every insert into bound_generics on the found side of a lookup of the same map); every expression the parser compiles has its type taken in the body that compiled it (so it can be compared with a declared type); the arity test in front of a zip over a function type\'s parameters is computed from its arg_len_range() (optional parameters), not only from the list length. These rule out the accept-too-much failures (truncated comparison, ignored component, swapped '
             'component). NOT decided: completeness (every assignable program accepted) and least-common-type optimality.',
        note='Trusted: syn parse; the reasons in ZIP_OK / PAIR_TABLE_REASONS (rules/c04.py) were confirmed by reading.',
        technique='static analysis on resolved MIR: binding-consumer and arity dominance, zip-origin analysis, abstract decision tables, ADT field coverage of the hand-written equality, value-origin rule for generic re-binding; sibling case-table agreement on the syntax tree',
        design='2/C04'),
    'C05': dict(
        level='other',
        text='Order-independence and ambiguity detection of resolve_overload decided as dataflow facts: the candidate loop '
             'carries state across iterations only by pushing to the tier vectors / the failure list; its only early exit is the documented '
             'short-circuit stub; the code after the loop is evaluated abstractly on the MIR for every (|exact|, |generic|) in {0,1,2,3}^2 and must reach exactly the '
             'documented decision (take the single exact; ambiguity for >1 exact; else the single generic; ambiguity for >1 generic; else '
             'NoOverload) whatever its syntactic form; the tier of a candidate is a function of (is_generic, '
             'is_unknown) and is_unknown of the argument types only; own overloads are appended before the parent\'s and never indexed by '
             'position; the own generic-parameter list of a declaration (which decides its tier) is not influenced by the generic names inherited from enclosing functions (data + control dependences with &mut mutation and closure summaries), so renaming a generic parameter cannot change a rank; the candidate list handed to resolve_overload is never cut by position between collection and resolution; get_item hides a parent overload of the recursing name exactly when one of its forward requirements is unfulfilled (decision table: the any/all closure evaluated abstractly, the polarity of the test read off the CFG). Hence the outcome depends only on the multiset of matching candidates. Known finding: dynamic candidates share the '
             'generic tier (R05.6). NOT decided: that spec.bind matches exactly the right candidates (C04).',
        note='Trusted: syn parse. One known finding listed in known_findings.json.',
        technique='static analysis on resolved MIR: loop-carried-state and exit-edge analysis, finite abstract evaluation of the post-loop decision table, influence (dependence) closure of the own-generics list; two tier/append rules on the syntax tree',
        design='2/C05'),
    'C01': dict(
        level='other',
        text='Necessary structural conditions of the checker/evaluator contract, each decided for ALL instances: call typing and the type '
             'relations (the C04 rules); for every one of the 286 native registrations, the declared spec against what the closure does with its '
             'arguments (constant argument indices within the required arity or under an args.len() test / args.get, to_primitive!/to_native! '
             'downcasts equal to the declared parameter type class, constructed result variants equal to the declared primitive return type): '
             '~800 facts; every explicit panic of the evaluator listed with the checker obligation that discharges it; every checked unsigned '
             'subtraction in builtins (the MIR operator, and the same arithmetic written on references, which is a call of the core::ops impl) guarded by a dominating comparison of the same operands (in the body, or at every call site of a private helper), computed on operands widened from a narrower type, or listed with a reason (and, where the reason is '
             'a match arm, revalidated structurally); list-shaped owning links have an iterative Drop; machine arithmetic on the small integer form that can overflow ((i64::MIN,-1), '
             '-i64::MIN; operators and the division-family methods) is excluded by an earlier match arm; get_func_with_type, evaluated abstractly, accepts a '
             'callback only when its return type equals the expected one (natives downcast callback results by that type); every with_capacity in the builtins is sized by the length of a collection already in memory or is dominated (in the body or at every call site) by a can_allocate computed from the same program-supplied number -- an unannounced request aborts the process. NOT decided: soundness of the type rules '
             'for all programs, absence of all panics (index/library panics, multiplication overflow).',
        note='Trusted: rustc MIR, syn; the reasons in EVAL_PANICS / SUB_OK (rules/c01.py). Three known findings (combinatorics on usize) in known_findings.json.',
        technique='static analysis: registration-vs-closure table agreement on the syntax tree; dominating-guard recognition on MIR asserts; panic inventory; ADT shape audit',
        design='2/C01'),
    'C02': dict(
        level='other',
        text='Table and ordering clauses decided for all instances: the bijection token <-> grammar rule <-> precedence-table entry <-> dispatch '
             'arm <-> interned function name <-> book entry for the 17 binary and 3 unary operators and the index sugar, with tiers monotone '
             'along the book\'s resolution order and ** right-associative; prefix-safety of every ordered choice of literal tokens; the '
             'desugarings keep the receiver first and the rest in textual order; the evaluator evaluates operands once and forward; for each '
             'of ~190 native closures, every argument is evaluated at most once per path and in index order, argument expressions are opaque, '
             'and the set of natives that can return a value without evaluating a declared parameter (must-evaluate analysis over the closure '
             'body) equals the documented short-circuit set in both directions. NOT decided: arithmetic results, precedence behaviour on all '
             'expression shapes, output text.',
        note='Trusted: pest_meta/syn parse; the book; pest PrecClimber semantics. Two known findings (assert re-evaluation, set_default) in known_findings.json.',
        technique='static analysis: table agreement across grammar / syntax tree / book; per-path argument-evaluation order and must-evaluate analysis on native closures',
        design='2/C02'),
    'C17': dict(
        level='other',
        text='Structural clauses decided for every site: values immutable after construction (type-closure audit, so every update returns a '
             'new collection and earlier versions cannot change); on every path from the examination of a KeyLocation (variant knowledge carried along the path) '
             'a stored element is paired with exactly one len + 1, a Found location stores nothing and leaves len alone, and a collection is rebuilt with len - 1 only where a Found '
             'location is established (in the body or at every call site), and every explicit length argument is 0, the source length or the source length minus one (never a bucket count); the two locate routines have the same summary (hash called on [key], '
             'to_u64 with failure exit, bucket looked up by that hash, eq called on [key, stored] in that order over the whole bucket with no position-dropping adaptor, '
             'Vacant/Missing/Found all carrying the converted hash), helpers included; every bucket handed to the table is a non-empty literal or stored on the is_empty()==false edge of a test of that bucket, '
             'because hash() and the size model fold over all buckets; a KeyLocation is used only on the collection it was computed on with no write in between, or on an unwritten clone of it; outside the bucket-table writers no decision on a KeyLocation tells Missing from Vacant (which of the two locate answers depends on collisions only). '
             'NOT decided: agreement with an association-list model under arbitrary consistent hash functions (value level).',
        note='Trusted: rustc MIR, borrow checking (no &mut through Rc).',
        technique='static analysis: type-closure immutability audit; variant-aware path counting; value-origin summaries with sibling cross-check; typestate of key locations (receiver identity + write-free paths) on resolved MIR',
        design='2/C17'),
    'C18': dict(
        level='other',
        text='Structural clauses decided for every site: every FencedString literal keeps buffer and code-point table consistent (no reuse of '
             'the table over a re-encoded buffer; the case-mapping siblings agree); every native that calls substring/substr with an '
             'argument-derived start tests it against the length first, and, because that test admits start == len, FencedString looks a caller-supplied position up in the code-point table only by length-tolerant accesses (get / range slice / index under a length test); inside FencedString an entry of the char-start table (a byte offset) is added to / subtracted from byte quantities or constants only, never a character index or count (unit origins through closures and captured variables); a unit analysis on the MIR (byte offsets vs code-point counts, origins walked backwards through statements, calls and closures) '
             'shows that no byte offset reaches a code-point sink (substring/substr indices, padding widths, integers returned by the str and regex '
             'natives) and no program-supplied index reaches a byte API (&str slicing, regex Input ranges) without conversion; the escape table equals the book\'s list with validated \\u{..} scalars; raw strings '
             'bypass unescaping while quoted and f-string text parts go through it; escape sequences are decoded in one pass (the escape pattern is scanned over literal text only, never over already decoded text); every string-body rule of the grammar that treats backslashes consumes backslash + its own delimiter as a unit (the documented \\" and \\\' work inside literals of the same quote); the keep-the-original fast path of to_lowercase / to_uppercase is taken only on a universal statement of the target-case predicate (titlecase letters are neither upper nor lower); the pattern validating the code of \\u{..} is anchored at both ends and describes 1 to 6 hexadecimal digits. NOT decided: agreement of split/replace/strip/... (xray '
             'stdlib text) with code-point semantics.',
        note='Trusted: syn parse; the book (lang/string_literals.md).',
        technique='static analysis: construction-site rules, guard-before-slice and table agreement with the book on the syntax tree; unit (byte vs code point) origin analysis on resolved MIR',
        design='2/C18'),
    'C10': dict(
        level='other',
        text='A loop inventory on resolved MIR: every natural loop (back edge) of the builtin and utility bodies (82) is classified as budgeted '
             '(structurally: the iterator is zipped with the search budget on every arm of every Either), finite-structural (iterates an existing '
             'in-memory collection, a usize range or a take(n), and not the logical elements of a lazy sequence / generator), or listed with a termination reason; inside the generator iterator every adaptor that can discard unboundedly many items '
             'per step is over a finite outer, zipped with the search budget or takes a search permit per examined item (calling the program\'s function per item is not a bound: it may be a native function value), or is reported; generator consumption '
             'and core::search are zipped with the search budget and propagate its violation; the timeout gate has the shape deadline > now and '
             'dominates every user frame; the search budget of a native call is obtained once, outside every loop and per-item closure (the crate helpers that obtain a budget for their caller count as sources). One known finding (unbudgeted skip). NOT decided: wall-clock bounds, cost of library calls, loops over '
             'sequences of finite but astronomically large logical length (bounded by the size limit only).',
        note='Trusted: rustc MIR (back edges), std iterator type names denote what they iterate; termination reasons in rules/c10.py LOOP_OK confirmed by reading.',
        technique='static analysis: natural-loop inventory with type-based iterator classification on resolved MIR; adaptor inventory; shape rules',
        design='2/C10'),
    'C15': dict(
        level='other',
        text='Immutability is decided completely (type-closure audit: no interior mutability, raw pointers, Rc::get_mut/make_mut or unsafe '
             'outside the audited utilities can reach a value, so no operation alters a sequence it was applied to). Structural clauses of the '
             'representations: natives hand XSequence::get only indices produced by value_to_idx (whose negative / infinite / unrepresentable '
             '/ out-of-range exits are checked); Chain and Slice literals occur only inside their invariant-keeping constructors and a slice of '
             'a slice is flattened by adding offsets (the operands of the rebuilt Slice come from the inner payload plus the request); whether slice() builds a Slice at all is decided '
             '(control + data dependence closure) by tests of start against end and against the length; the Range literal is built only after the zero-step and emptiness tests; '
             'value_to_idx compares the converted index with the length as idx >= len / idx < len wherever the test is written; natives never order two raw index arguments before normalising them; optional bounds (None = unbounded) are never combined with the derived ordering of Option; integer `as` casts in the builtins keep the value (widening) or are listed with the bound that makes them exact (a length `as isize` is neither); every success return of a native that validates an index lies behind value_to_idx on every path. NOT decided: '
             'agreement of len/get/slice/... with list semantics for all compositions (value level).',
        note='Trusted: rustc MIR, syn parse.',
        technique='static analysis: type-closure immutability audit; who-constructs rules; backward slices, control-dependence closure and operand-origin classification of comparisons on resolved MIR',
        design='2/C15'),
    'C16': dict(
        level='other',
        text='Re-iterability follows from the immutability audit plus _iter(&self) never writing through self; laziness is decided as the absence '
             'of absorbing adaptors (collect, count, last, fold, ...) on inner generator iterators anywhere in the _iter family; the slice '
             'dimensions are decided by path-sensitive dependences on the MIR: on every path the merged start depends on inner start and start, the '
             'merged end depends on the new end + inner start whenever the new end may exist and on the inner end whenever it may exist, and the '
             'consumer takes a count depending on stored end and start and skips the stored start; generator-to-generator library functions written in the language apply no consuming function (by the book: Generator in, non-Generator out) to their generator parameter; where a vector of part iterators is advanced in a loop (cartesian product) an exhausted part is rewound before the loop continues; every part list built by the generator chain is computed from both operands (field-sensitive dependences). One known finding (flatten walks its outer generator eagerly). NOT decided: element-wise agreement with list pipelines.',
        note='Trusted: rustc MIR, syn parse, laziness of std iterator adaptors.',
        technique='static analysis: immutability audit, adaptor inventory over the iterator-construction bodies, path-sensitive dependence analysis of the slice dimensions on resolved MIR; a lexical rule over the stdlib text against the book\'s signatures',
        design='2/C16'),
    'C19': dict(
        level='other',
        text='Table agreement of the derived relational operators (lt/gt/le/ge = is_negative / is_positive / !is_positive / !is_negative of cmp, '
             'ne = !eq, xcmp = -1/0/1); tuple derivations pair components by one forward zip after an arity test and stop at the first deciding '
             'component; and a typestate check of the unsafe fallible merge sort / heap on MIR: every bitwise duplication is followed by the '
             'construction of a Drop guard before any comparator call or return, guards implement Drop and are never forgotten - so a comparator '
             'failing midway loses or duplicates no element; the natural-run detection of the merge sort extends a reversed run while is_less and a '
             'kept run while !is_less (contradiction rule); format padding is computed from code-point counts (unit analysis); hash natives build their integers from u64 values or constants, never by big-integer arithmetic, so derived hashes stay in [0, 2^64). NOT decided: '
             'equivalence / total-order laws, the rest of the format-specifier semantics, full functional correctness of the sort.',
        note='Trusted: rustc MIR, syn parse.',
        technique='static analysis: table agreement and a sibling-contradiction rule on the syntax tree; typestate (duplicate -> guard -> compare) and unit-origin analysis on resolved MIR',
        design='2/C19'),
}

NA_REASONS = {
    'C20': 'round-trip equality over value domains (dates, fractions, JSON, radix text) implemented in the xray-language stdlib text and serde_json; no clause whose truth is in the shape of the Rust code beyond range guards covered under C01',
}

checks = []
na = []
for p in props:
    pid = p['id']
    if pid in CLAIMED:
        c = CLAIMED[pid]
        checks.append({
            'property_id': pid,
            'quick_cmd': './xv check %s --tier quick' % pid,
            'thorough_cmd': './xv check %s --tier thorough' % pid,
            'evidence_file': 'evidence/%s.json' % pid,
            'replay_cmd_template': './xv replay {path}',
            'engine': 'mir+ast',
            'level_claimed': {'category': c['level'], 'text': c['text'], 'design_ref': 'DESIGN.md section ' + c['design']},
            'level_note': c['note'],
            'technique': c['technique'],
        })
    else:
        na.append({'property_id': pid, 'reason': NA_REASONS.get(pid, 'check under construction (see DESIGN.md); not claimed yet')})

m = {
    'version': 1,
    'setup_cmd': './xv setup',
    'hooks': {'guard': 'xray_verif', 'enable': 'none needed: static analysis reads /repo\'s sources; no instrumentation is compiled in',
              'baseline_off_cmd': 'cd /repo && cargo test --workspace --no-fail-fast --offline', 'source_commits': [], 'add_only': True},
    'engines': [
        {'name': 'mir', 'path': 'engines/mir', 'serves_properties': sorted(CLAIMED), 'kind_free_text': 'rustc_private driver (nightly) dumping resolved MIR facts of crate xray as JSON; rules in rules/*.py'},
        {'name': 'ast', 'path': 'engines/ast', 'serves_properties': sorted(CLAIMED), 'kind_free_text': 'syn 2 syntax trees of the raw sources + pest_meta grammar tree + book markdown; rules in rules/*.py'},
    ],
    'checks': checks,
    'notes': 'Static analysis only. ./xv check <id> regenerates facts from /repo\'s working tree when its hash changed. Known findings: known_findings.json.',
    'not_applicable': na,
}
json.dump(m, open(os.path.join(ROOT, 'MANIFEST.json'), 'w'), indent=1)
print('claimed', sorted(CLAIMED), 'n/a', len(na))
