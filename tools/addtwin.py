#!/usr/bin/env python3
"""addtwin.py <name> <property> <patchfile> <why> : register a behaviour-preserving refactor on which <property>'s check must stay silent"""
import json, os, shutil, sys
ROOT = os.path.dirname(os.path.dirname(os.path.abspath(__file__)))
name, prop, patch, why = sys.argv[1:5]
shutil.copy(patch, os.path.join(ROOT, 'twins', name + '.diff'))
json.dump({'patch': name + '.diff', 'property': prop, 'why': why}, open(os.path.join(ROOT, 'twins', name + '.json'), 'w'), indent=1)
print('twin', name)
